#!/usr/bin/env python3
"""Regenerates MANIFEST.json from the table below (run after adding a check)."""
import json
import os

ROOT = os.path.dirname(os.path.dirname(os.path.abspath(__file__)))

TB = ("Trusted base: Lean 4.33 kernel with axioms propext/Classical.choice/Quot.sound only (audited per theorem on every run, no native_decide/bv_decide/sorry); "
      "the hand-written Lean model is tied to /repo by the correspondence run (harness/lift.py lifting, case generators, compiled Lean driver, CPython 3.12); "
      "Python's object model (dataclass ==, match, singledispatch, sets) is exercised, not modelled. ")

CHECKS = {
    "C01": dict(
        text="Machine-checked Lean theorem C01_optimize_preserves (induction on fuel over a 90-arm model of the optimizer; every tree, every interpretation, every value) for every configuration without a known-bad arm, plus C01_partial_impl for the code as it is (no quirk arm fired => meaning preserved) and decide-witnesses for the quirk arms; the model is tied to predicate.optimize on every run by structural comparison on all propositional trees <= 6 nodes over 3 names (15 030) and random shared trees, and the property itself is evaluated on the real objects under all assignments.",
        note=TB + "The open defects KF-xorNotAnd / KF-xorOr (pinned by existing tests) are reported as KNOWN-FINDING; a failing input is explained only when model and code agree on it and the model's trace names that arm.",
        tech="Lean 4 proof (induction on fuel, per-arm soundness lemmas) + differential correspondence of the model with predicate.optimize", ref="§7 C01, §4, §5"),
    "C02": dict(
        text="Same Lean soundness theorem (it quantifies over comparison, range, membership, none/truthy, isinstance with arbitrary overlapping classes, function atoms and all relative orders of constants of a linear order) with corollaries for the boundary claims (ranges as conjunctions with strictness, ge&le point collapse, set algebra incl. empty/singleton collapse) and decide-witnesses for the fn&eq and isinstance arms; tie: structural comparison on ~50 000 trees over a 53-atom grid and model eval vs real __call__ on 14 values.",
        note=TB + "Order atoms are totalised consistently on non-scalars (ge/gt false, le/lt their complements); the search only judges values on which every atom of the original is defined. Open defects KF-fnEq, KF-instDisjoint (+ the xor ones) are KNOWN-FINDINGs.",
        tech="Lean 4 proof (same induction, order facts by grind over LinearOrder) + differential correspondence (opt, eval)", ref="§7 C02"),
    "C03": dict(
        text="Same Lean soundness theorem over values with collections (all/any = List.all/List.any, empty collection included) with corollaries for the five quantifier rewrites and the subset-intersection rewrite, decide-witnesses for any(true) and disjoint subsets; tie: structural comparison on ~12 000 quantified/subset trees and model eval vs real calls on 166 collections.",
        note=TB + "Collections are finite and re-iterable. Open defects KF-anyTrue, KF-subsetEmpty (+ inherited ones) are KNOWN-FINDINGs.",
        tech="Lean 4 proof + differential correspondence (opt, eval)", ref="§7 C03"),
    "C04": dict(
        text="Lean theorem C04_negate_complement: eval (negate p) x = !eval p x for every constructor, interpretation and value (18 duals, ~p unwrapping, default wrapping), the dual table and involutivity on atoms; tie: model negate vs predicate.negate on every exported constructor and the C02/C03 grids, and negate(p)(x) vs not p(x) on the real objects.",
        note=TB + "le/lt are the complements of gt/ge by definition of the totalised semantics; C04_order_duals shows they are the usual relations on scalars of a linear order (no NaN).",
        tech="Lean 4 proof (case analysis on all constructors) + differential correspondence (neg)", ref="§7 C04"),
    "C05": dict(
        text="Lean theorems C05_implies_sound (all predicates, all values, linear order) and C05_implies_complete (listed atom pairs, dense linear order), plus the three 'always recognises' clauses; tie: model implies vs predicate.implies on all ordered pairs of a 160-predicate pool; soundness/completeness also judged on the real objects over a dense grid.",
        note=TB + "Completeness is stated for dense orders (C05_int_gap shows why).",
        tech="Lean 4 proof + differential correspondence (imp)", ref="§7 C05"),
    "C06": dict(
        text="Lean theorems: beq (the model of Python == on predicates) is sound w.r.t. eval for every interpretation, reflexive, symmetric, unordered on &,|,^, and separates every parameter; can_optimize definition; tie: model beq vs real == on ALL ordered pairs of a pool with every exported constructor (structurally equal fresh copies on the right), then reflexivity/symmetry/agreement on probe values on the real objects.",
        note=TB + "Parameters are interned by Python ==/hash (functions, getters by identity). this_p/root_p/lazy_p are opaque leaves (excepted by the property).",
        tech="Lean 4 proof (induction on the tree) + differential correspondence (beq)", ref="§7 C06"),
    "C13": dict(
        text="Lean theorems C13_*: for every atom constructor with universally quantified parameters, each of the 28 law instances (both operand orders) is an equation on the model's output for every fuel >= 3 (30 theorems by case analysis over the 31 atom constructors; p & p under the hypothesis that the subset arm is not the implemented one, with a partial form and a decide-witness for is_subset_p(set())); tie: model vs predicate.optimize on all 28 laws x 132 atoms incl. opaque kinds, and the result compared with the result the property names.",
        note=TB + "Open defect KF-subsetEmpty is a KNOWN-FINDING (p & p for p = is_subset_p(set())).",
        tech="Lean 4 proof (case analysis per atom constructor, simp) + differential correspondence (opt)", ref="§7 C13"),
    "C12": dict(
        text="Lean theorems: fuel monotonicity and determinism of the fuelled optimizer model (a result, once produced, is the result for every larger fuel), one-step termination on atoms; NOT proved: termination for every tree and the polynomial bound (stated in DESIGN.md). Tie and observation: the model never runs out of fuel and predicate.optimize always returns a predicate on the C01-C03 term spaces and on random trees of 60-400 nodes (structural agreement on every case); optimize* call counts on six growing families (at most quadratic; a measurement); purity by deep structural snapshots and fresh-copy comparison over random sequences of the eight analysis functions on one shared object.",
        note=TB + "PARTIAL: the unbounded termination theorem and the polynomial bound are not proved; purity is decided by the correspondence (the Lean functions are pure by construction), not by a theorem of substance.",
        tech="Lean 4 proof (fuel monotonicity/determinism) + differential correspondence + call-count measurement + snapshot histories", ref="§7 C12, §10"),
}

PENDING = {}


def main():
    props = [json.loads(l) for l in open(os.path.join(ROOT, "properties.jsonl"))]
    checks = []
    na = []
    for p in props:
        pid = p["id"]
        if pid in CHECKS and os.path.exists(os.path.join(ROOT, "harness", "props", pid.lower() + ".py")):
            c = CHECKS[pid]
            checks.append({
                "property_id": pid,
                "quick_cmd": f"./check {pid} quick",
                "thorough_cmd": f"./check {pid} thorough",
                "evidence_file": f"evidence/{pid}.json",
                "replay_cmd_template": f"./check {pid} --replay {{path}}",
                "engine": "lean4-model+correspondence",
                "level_claimed": {"category": "proof", "text": c["text"], "design_ref": c["ref"]},
                "level_note": c["note"],
                "technique": c["tech"],
            })
        else:
            na.append({"property_id": pid, "reason": PENDING.get(pid, "check not built yet at this commit (work in progress; see DESIGN.md §7 for the plan)")})
    man = {
        "version": 1,
        "setup_cmd": "cd lean && lake build PyPred driver",
        "hooks": {
            "guard": "PY_PREDICATE_VERIF",
            "enable": "no source hooks are needed: the checks import /repo in-process and instrument from outside (sys.settrace, monkey-patching inside the harness process); the variable is set by ./check for future use",
            "baseline_off_cmd": "cd /repo && /venv/bin/python -m pytest -q -p no:cacheprovider",
            "source_commits": [],
            "add_only": True,
        },
        "engines": [{"name": "lean4-model+correspondence", "path": "lean/", "serves_properties": [c["property_id"] for c in checks],
                     "kind_free_text": "hand-written Lean 4 models + theorems (lean/PyPred), compiled driver (lean/Driver.lean), Python correspondence harness (harness/)"}],
        "checks": checks,
        "not_applicable": na,
        "notes": "Fix commits in /repo: see known_findings.json ('fixed' entries). Every check first rebuilds the Lean side (lake build, no-op when unchanged) and imports predicate from /repo's working tree.",
    }
    json.dump(man, open(os.path.join(ROOT, "MANIFEST.json"), "w"), indent=1)
    print(f"{len(checks)} checks, {len(na)} not_applicable")


if __name__ == "__main__":
    main()
