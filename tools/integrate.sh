#!/bin/bash
# usage: tools/integrate.sh /tmp/w_name   -- copy files that exist only in the builder's copy (never overwrite)
set -e
SRC=$1
cd "$SRC"
find . -type f \( -path './lean/.lake/*' -o -path './.git/*' -o -name '*.pyc' -o -path './replays/*' -o -path './evidence/*' -o -path './lean/scratch/*' \) -prune -o -type f -print | while read f; do
  if [ ! -e "/verif/$f" ]; then
    mkdir -p "/verif/$(dirname $f)"
    cp "$f" "/verif/$f"
    echo "added $f"
  fi
done
diff <(grep -A2 'lean_exe' /verif/lean/lakefile.toml) <(grep -A2 'lean_exe' lean/lakefile.toml) | grep '^>' || true
